/-
  JSON values as serde_json (without `preserve_order`) represents, prints and parses them.
  Text is `List Char` everywhere in the model (`Str`); stored items are `List UInt8` (`Bytes`).
  Objects are association lists kept sorted by key (BTreeMap: byte order of UTF-8 = code point
  order), numbers are opaque canonical tokens.
  Import-free.
-/
namespace Melda

abbrev Str := List Char
abbrev Bytes := List UInt8

/-- UTF-8 encoding of a text -/
def utf8 (s : Str) : Bytes := s.flatMap String.utf8EncodeChar

/-- Strict lexicographic order on code points (= byte order of the UTF-8 encodings) -/
def strLt : Str → Str → Bool
  | [], [] => false
  | [], _ :: _ => true
  | _ :: _, [] => false
  | a :: as, b :: bs => if a.val < b.val then true else if b.val < a.val then false else strLt as bs

def strLe (a b : Str) : Bool := !strLt b a

inductive JVal where
  | null
  | bool (b : Bool)
  | num (tok : Str)
  | str (s : Str)
  | arr (l : List JVal)
  | obj (o : List (Str × JVal))
deriving Inhabited

abbrev JObj := List (Str × JVal)

mutual
def JVal.beq : JVal → JVal → Bool
  | .null, .null => true
  | .bool a, .bool b => a == b
  | .num a, .num b => a == b
  | .str a, .str b => a == b
  | .arr a, .arr b => JVal.beqL a b
  | .obj a, .obj b => JVal.beqO a b
  | _, _ => false
def JVal.beqL : List JVal → List JVal → Bool
  | [], [] => true
  | a :: as, b :: bs => a.beq b && JVal.beqL as bs
  | _, _ => false
def JVal.beqO : JObj → JObj → Bool
  | [], [] => true
  | (k, a) :: as, (k', b) :: bs => k == k' && a.beq b && JVal.beqO as bs
  | _, _ => false
end

instance : BEq JVal := ⟨JVal.beq⟩

/-! ### Objects as sorted association lists (BTreeMap<String, Value>) -/

/-- `Map::insert`: replace when present, otherwise insert at the sorted position -/
def objInsert (k : Str) (v : JVal) : JObj → JObj
  | [] => [(k, v)]
  | (k', v') :: t =>
    if k = k' then (k, v) :: t
    else if strLt k k' then (k, v) :: (k', v') :: t
    else (k', v') :: objInsert k v t

def objGet (k : Str) : JObj → Option JVal
  | [] => none
  | (k', v) :: t => if k = k' then some v else objGet k t

def objHas (k : Str) (o : JObj) : Bool := (objGet k o).isSome

def objRemove (k : Str) (o : JObj) : JObj := o.filter (fun p => p.1 ≠ k)

/-- build a map from pairs in iteration order (`collect::<Map>()`): later duplicates win -/
def objOfList (l : List (Str × JVal)) : JObj := l.foldl (fun acc p => objInsert p.1 p.2 acc) []

def JVal.asStr? : JVal → Option Str | .str s => some s | _ => none
def JVal.asArr? : JVal → Option (List JVal) | .arr l => some l | _ => none
def JVal.asObj? : JVal → Option JObj | .obj o => some o | _ => none

/-! ### Printing (serde_json::to_string, compact) -/

def hexDigitLower (n : Nat) : Char := if n < 10 then Char.ofNat (48 + n) else Char.ofNat (87 + n)

def escapeChar (c : Char) : Str :=
  if c = '"' then ['\\', '"']
  else if c = '\\' then ['\\', '\\']
  else if c.val < 0x20 then
    if c.val = 0x08 then ['\\', 'b']
    else if c.val = 0x09 then ['\\', 't']
    else if c.val = 0x0A then ['\\', 'n']
    else if c.val = 0x0C then ['\\', 'f']
    else if c.val = 0x0D then ['\\', 'r']
    else ['\\', 'u', '0', '0', hexDigitLower (c.val.toNat / 16), hexDigitLower (c.val.toNat % 16)]
  else [c]

def renderStr (s : Str) : Str := '"' :: (s.flatMap escapeChar ++ ['"'])

mutual
def JVal.render : JVal → Str
  | .null => "null".toList
  | .bool true => "true".toList
  | .bool false => "false".toList
  | .num t => t
  | .str s => renderStr s
  | .arr [] => ['[', ']']
  | .arr (v :: t) => '[' :: (v.render ++ JVal.renderTail t)
  | .obj [] => ['{', '}']
  | .obj ((k, v) :: t) => '{' :: (renderStr k ++ ':' :: (v.render ++ JVal.renderOTail t))
def JVal.renderTail : List JVal → Str
  | [] => [']']
  | v :: t => ',' :: (v.render ++ JVal.renderTail t)
def JVal.renderOTail : JObj → Str
  | [] => ['}']
  | (k, v) :: t => ',' :: (renderStr k ++ ':' :: (v.render ++ JVal.renderOTail t))
end

/-! ### Parsing (serde_json::from_str), recursive descent with fuel -/

def isWs (c : Char) : Bool := c = ' ' || c = '\n' || c = '\t' || c = '\r'

def skipWs : Str → Str
  | [] => []
  | c :: t => if isWs c then skipWs t else c :: t

def isDigit (c : Char) : Bool := '0'.val ≤ c.val && c.val ≤ '9'.val

def hexVal? (c : Char) : Option Nat :=
  if '0'.val ≤ c.val && c.val ≤ '9'.val then some (c.val.toNat - 48)
  else if 'a'.val ≤ c.val && c.val ≤ 'f'.val then some (c.val.toNat - 87)
  else if 'A'.val ≤ c.val && c.val ≤ 'F'.val then some (c.val.toNat - 55)
  else none

def hex4v? (a b c d : Char) : Option Nat :=
  match hexVal? a, hexVal? b, hexVal? c, hexVal? d with
  | some a, some b, some c, some d => some (((a * 16 + b) * 16 + c) * 16 + d)
  | _, _, _, _ => none

/-- body of a string literal after the opening quote (`acc` is the reversed decoded prefix) -/
def parseStrBody : Str → Str → Option (Str × Str)
  | [], _ => none
  | '"' :: t, acc => some (acc.reverse, t)
  | '\\' :: '"' :: t, acc => parseStrBody t ('"' :: acc)
  | '\\' :: '\\' :: t, acc => parseStrBody t ('\\' :: acc)
  | '\\' :: '/' :: t, acc => parseStrBody t ('/' :: acc)
  | '\\' :: 'b' :: t, acc => parseStrBody t (Char.ofNat 8 :: acc)
  | '\\' :: 'f' :: t, acc => parseStrBody t (Char.ofNat 12 :: acc)
  | '\\' :: 'n' :: t, acc => parseStrBody t ('\n' :: acc)
  | '\\' :: 'r' :: t, acc => parseStrBody t ('\r' :: acc)
  | '\\' :: 't' :: t, acc => parseStrBody t ('\t' :: acc)
  | '\\' :: 'u' :: a :: b :: c :: d :: t, acc =>
    match hex4v? a b c d with
    | none => none
    | some n =>
      if 0xD800 ≤ n && n < 0xDC00 then
        match t with
        | '\\' :: 'u' :: e :: f :: g :: h :: t' =>
          match hex4v? e f g h with
          | some m =>
            if 0xDC00 ≤ m && m < 0xE000 then
              parseStrBody t' (Char.ofNat (0x10000 + (n - 0xD800) * 0x400 + (m - 0xDC00)) :: acc)
            else none
          | none => none
        | _ => none
      else if 0xDC00 ≤ n && n < 0xE000 then none
      else parseStrBody t (Char.ofNat n :: acc)
  | '\\' :: _, _ => none
  | c :: t, acc => if c.val < 0x20 then none else parseStrBody t (c :: acc)

def takeDigits : Str → Str × Str
  | [] => ([], [])
  | c :: t => if isDigit c then let (d, r) := takeDigits t; (c :: d, r) else ([], c :: t)

/-- JSON number grammar; returns the consumed token -/
def parseNum (s : Str) : Option (Str × Str) :=
  let (sign, s1) := match s with | '-' :: t => (['-'], t) | _ => ([], s)
  let (ip, s2) := takeDigits s1
  if ip = [] then none
  else if ip.length > 1 && ip.head? = some '0' then none
  else
    let (frac?, s3) : Option Str × Str := match s2 with
      | '.' :: t => let (f, r) := takeDigits t; if f = [] then (none, []) else (some ('.' :: f), r)
      | _ => (some [], s2)
    match frac? with
    | none => none
    | some frac =>
      let (exp?, s4) : Option Str × Str := match s3 with
        | e :: t =>
          if e = 'e' || e = 'E' then
            let (sg, t1) := match t with | '+' :: u => (['+'], u) | '-' :: u => (['-'], u) | _ => ([], t)
            let (x, r) := takeDigits t1
            if x = [] then (none, []) else (some (e :: (sg ++ x)), r)
          else (some [], s3)
        | [] => (some [], s3)
      match exp? with
      | none => none
      | some ex => some (sign ++ ip ++ frac ++ ex, s4)

mutual
def parseVal : Nat → Str → Option (JVal × Str)
  | 0, _ => none
  | fuel + 1, s =>
    match skipWs s with
    | 'n' :: 'u' :: 'l' :: 'l' :: t => some (.null, t)
    | 't' :: 'r' :: 'u' :: 'e' :: t => some (.bool true, t)
    | 'f' :: 'a' :: 'l' :: 's' :: 'e' :: t => some (.bool false, t)
    | '"' :: t => (parseStrBody t []).map (fun (x, r) => (.str x, r))
    | '[' :: t =>
      match skipWs t with
      | ']' :: r => some (.arr [], r)
      | t' => parseElems fuel t' []
    | '{' :: t =>
      match skipWs t with
      | '}' :: r => some (.obj [], r)
      | t' => parseMembers fuel t' []
    | c :: t =>
      if c = '-' || isDigit c then (parseNum (c :: t)).map (fun (x, r) => (.num x, r)) else none
    | [] => none
def parseElems : Nat → Str → List JVal → Option (JVal × Str)
  | 0, _, _ => none
  | fuel + 1, s, acc =>
    match parseVal fuel s with
    | none => none
    | some (v, t) =>
      match skipWs t with
      | ',' :: t' => parseElems fuel t' (v :: acc)
      | ']' :: t' => some (.arr (v :: acc).reverse, t')
      | _ => none
def parseMembers : Nat → Str → JObj → Option (JVal × Str)
  | 0, _, _ => none
  | fuel + 1, s, acc =>
    match skipWs s with
    | '"' :: t =>
      match parseStrBody t [] with
      | none => none
      | some (k, t1) =>
        match skipWs t1 with
        | ':' :: t2 =>
          match parseVal fuel t2 with
          | none => none
          | some (v, t3) =>
            match skipWs t3 with
            | ',' :: t4 => parseMembers fuel t4 (objInsert k v acc)
            | '}' :: t4 => some (.obj (objInsert k v acc), t4)
            | _ => none
        | _ => none
    | _ => none
end

/-- `serde_json::from_str` -/
def parseJson (s : Str) : Option JVal :=
  match parseVal (s.length + 1) s with
  | some (v, t) => if skipWs t = [] then some v else none
  | none => none

/-! ### UTF-8 decoding (`std::str::from_utf8`), strict -/

def utf8Decode : Bytes → Option Str
  | [] => some []
  | b0 :: t =>
    if b0 < 0x80 then (utf8Decode t).map (Char.ofNat b0.toNat :: ·)
    else if b0 < 0xC2 then none
    else if b0 < 0xE0 then
      match t with
      | b1 :: t' =>
        if b1 &&& 0xC0 = 0x80 then
          (utf8Decode t').map (Char.ofNat ((b0.toNat % 32) * 64 + b1.toNat % 64) :: ·)
        else none
      | _ => none
    else if b0 < 0xF0 then
      match t with
      | b1 :: b2 :: t' =>
        let n := ((b0.toNat % 16) * 64 + b1.toNat % 64) * 64 + b2.toNat % 64
        if b1 &&& 0xC0 = 0x80 && b2 &&& 0xC0 = 0x80 && 0x800 ≤ n && !(0xD800 ≤ n && n < 0xE000) then
          (utf8Decode t').map (Char.ofNat n :: ·)
        else none
      | _ => none
    else if b0 < 0xF5 then
      match t with
      | b1 :: b2 :: b3 :: t' =>
        let n := (((b0.toNat % 8) * 64 + b1.toNat % 64) * 64 + b2.toNat % 64) * 64 + b3.toNat % 64
        if b1 &&& 0xC0 = 0x80 && b2 &&& 0xC0 = 0x80 && b3 &&& 0xC0 = 0x80 && 0x10000 ≤ n && n < 0x110000 then
          (utf8Decode t').map (Char.ofNat n :: ·)
        else none
      | _ => none
    else none

/-! ### Nesting depth and the parser's recursion limit

  `serde_json` parses with a recursion limit: the deserializer starts with `remaining_depth = 128`,
  decrements it when it enters an array or an object and fails (`RecursionLimitExceeded`) when it
  reaches 0 - a text nested 128 levels or more is refused, 127 levels are read.  The serialiser has
  no limit.  Everything the library stores is read back through this parser. -/

mutual
/-- number of nested containers: scalars 0, `[]` and `{}` 1, `[[1]]` 2 -/
def JVal.depth : JVal → Nat
  | .arr l => JVal.depthL l + 1
  | .obj o => JVal.depthO o + 1
  | _ => 0
def JVal.depthL : List JVal → Nat
  | [] => 0
  | v :: t => max v.depth (JVal.depthL t)
def JVal.depthO : JObj → Nat
  | [] => 0
  | (_, v) :: t => max v.depth (JVal.depthO t)
end

/-- `serde_json`'s recursion limit -/
def RECURSION_LIMIT : Nat := 128

/-- `serde_json::from_str` as the library is built (recursion limit on): the text is read iff it is JSON
    nested less than 128 levels -/
def parseJsonLim (s : Str) : Option JVal :=
  match parseJson s with
  | some v => if v.depth < RECURSION_LIMIT then some v else none
  | none => none

/-- parse stored bytes as JSON text (with the recursion limit of the real parser) -/
def parseJsonBytes (b : Bytes) : Option JVal := (utf8Decode b).bind parseJsonLim

def JVal.renderBytes (v : JVal) : Bytes := utf8 v.render

end Melda

namespace Melda

mutual
theorem JVal.beq_eq : ∀ (a b : JVal), a.beq b = true → a = b
  | .null, .null, _ => rfl
  | .bool a, .bool b, h => by simp [JVal.beq] at h; simp [h]
  | .num a, .num b, h => by simp [JVal.beq] at h; simp [h]
  | .str a, .str b, h => by simp [JVal.beq] at h; simp [h]
  | .arr a, .arr b, h => by simp only [JVal.beq] at h; rw [JVal.beqL_eq a b h]
  | .obj a, .obj b, h => by simp only [JVal.beq] at h; rw [JVal.beqO_eq a b h]
  | .null, .bool _, h | .null, .num _, h | .null, .str _, h | .null, .arr _, h | .null, .obj _, h
  | .bool _, .null, h | .bool _, .num _, h | .bool _, .str _, h | .bool _, .arr _, h | .bool _, .obj _, h
  | .num _, .null, h | .num _, .bool _, h | .num _, .str _, h | .num _, .arr _, h | .num _, .obj _, h
  | .str _, .null, h | .str _, .bool _, h | .str _, .num _, h | .str _, .arr _, h | .str _, .obj _, h
  | .arr _, .null, h | .arr _, .bool _, h | .arr _, .num _, h | .arr _, .str _, h | .arr _, .obj _, h
  | .obj _, .null, h | .obj _, .bool _, h | .obj _, .num _, h | .obj _, .str _, h | .obj _, .arr _, h => by
    simp [JVal.beq] at h
theorem JVal.beqL_eq : ∀ (a b : List JVal), JVal.beqL a b = true → a = b
  | [], [], _ => rfl
  | x :: xs, y :: ys, h => by
    simp only [JVal.beqL, Bool.and_eq_true] at h
    rw [JVal.beq_eq x y h.1, JVal.beqL_eq xs ys h.2]
  | [], _ :: _, h | _ :: _, [], h => by simp [JVal.beqL] at h
theorem JVal.beqO_eq : ∀ (a b : JObj), JVal.beqO a b = true → a = b
  | [], [], _ => rfl
  | (k, x) :: xs, (k', y) :: ys, h => by
    simp only [JVal.beqO, Bool.and_eq_true, beq_iff_eq] at h
    rw [h.1.1, JVal.beq_eq x y h.1.2, JVal.beqO_eq xs ys h.2]
  | [], _ :: _, h | _ :: _, [], h => by simp [JVal.beqO] at h
end

mutual
theorem JVal.beq_refl : ∀ (a : JVal), a.beq a = true
  | .null => rfl
  | .bool a => by simp [JVal.beq]
  | .num a => by simp [JVal.beq]
  | .str a => by simp [JVal.beq]
  | .arr a => by simp only [JVal.beq]; exact JVal.beqL_refl a
  | .obj a => by simp only [JVal.beq]; exact JVal.beqO_refl a
theorem JVal.beqL_refl : ∀ (a : List JVal), JVal.beqL a a = true
  | [] => rfl
  | x :: xs => by simp only [JVal.beqL, Bool.and_eq_true]; exact ⟨JVal.beq_refl x, JVal.beqL_refl xs⟩
theorem JVal.beqO_refl : ∀ (a : JObj), JVal.beqO a a = true
  | [] => rfl
  | (k, x) :: xs => by
    simp only [JVal.beqO, Bool.and_eq_true, beq_self_eq_true, true_and]
    exact ⟨JVal.beq_refl x, JVal.beqO_refl xs⟩
end

instance : DecidableEq JVal := fun a b =>
  if h : a.beq b = true then isTrue (JVal.beq_eq a b h)
  else isFalse (fun e => h (e ▸ JVal.beq_refl a))

instance : LawfulBEq JVal where
  eq_of_beq := JVal.beq_eq _ _
  rfl := JVal.beq_refl _

end Melda
