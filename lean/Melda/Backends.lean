/-
  Models of the logic of the storage backends (`memoryadapter.rs`, `filesystemadapter.rs`,
  `sqliteadapter.rs`, `flate2adapter.rs`, `brotliadapter.rs`) over abstract primitives:
  a byte map for memory, a path map for the directory layout, a text table for SQLite, a codec for the
  wrappers. `Props/C17b.lean` proves that each refines the write-once contract `KVSpec` on the
  contract's domain; the `kv` correspondence channel runs these models next to the real backends.
  Import-free.
-/
import Melda.Adapter
namespace Melda

/-- result of a backend call -/
inductive BRes (α : Type) where
  | ok (a : α)
  | err
  | panic
deriving Inhabited

/-! ### MemoryAdapter: a map, first write wins, explicit range check -/

structure MemBackend where
  m : KVSpec := {}

namespace MemBackend
def write (b : MemBackend) (k : Str) (d : Bytes) : MemBackend := { m := b.m.write k d }
def read (b : MemBackend) (k : Str) (off len : Nat) : BRes Bytes :=
  match b.m.get k with
  | none => .err
  | some d =>
    if off = 0 ∧ len = 0 then .ok d
    else if off + len > d.length then .err
    else .ok ((d.drop off).take len)
def list (b : MemBackend) (ext : Str) : List Str := b.m.list ext
end MemBackend

/-! ### FilesystemAdapter: two-level layout `<first two characters>/<key>` -/

def fsPath (key : Str) : Str := key.take 2 ++ '/' :: key

structure FsBackend where
  /-- relative path ↦ file content -/
  files : KVSpec := {}

namespace FsBackend
/-- `write_object`: create the file only if it does not exist -/
def write (b : FsBackend) (k : Str) (d : Bytes) : FsBackend := { files := b.files.write (fsPath k) d }
/-- `read_object`: `length == 0` means the whole file (whatever the offset) -/
def read (b : FsBackend) (k : Str) (off len : Nat) : BRes Bytes :=
  match b.files.get (fsPath k) with
  | none => .err
  | some d =>
    if len = 0 then .ok d
    else if d.length < off + len then .err
    else .ok ((d.drop off).take len)
/-- the file name of a path: what follows the first `/` -/
def baseName (p : Str) : Str := (p.dropWhile (· ≠ '/')).drop 1
/-- `list_objects`: every file of every sub-directory whose name ends with `ext`, suffix removed -/
def list (b : FsBackend) (ext : Str) : List Str :=
  ((b.files.items.map (fun p => baseName p.1)).filter (fun n => KVSpec.isSuffix ext n)).map
    (fun n => n.take (n.length - ext.length))
end FsBackend

/-! ### SqliteAdapter: table `entries(key PRIMARY KEY, value)` with base64 text values,
    `INSERT OR IGNORE` -/

structure TextCodec where
  enc : Bytes → Str
  dec : Str → Option Bytes

structure SqlBackend where
  rows : List (Str × Str) := []      -- key ↦ encoded value, keys unique

namespace SqlBackend
def find (b : SqlBackend) (k : Str) : Option Str := (b.rows.find? (fun r => r.1 = k)).map (·.2)
def write (c : TextCodec) (b : SqlBackend) (k : Str) (d : Bytes) : SqlBackend :=
  match b.find k with
  | some _ => b
  | none => { rows := b.rows ++ [(k, c.enc d)] }
/-- `read_object`: decode, then whole value or an unchecked slice (out of range aborts) -/
def read (c : TextCodec) (b : SqlBackend) (k : Str) (off len : Nat) : BRes Bytes :=
  match b.find k with
  | none => .err
  | some t =>
    match c.dec t with
    | none => .panic
    | some d =>
      if off = 0 ∧ len = 0 then .ok d
      else if off + len > d.length then .panic
      else .ok ((d.drop off).take len)
def list (b : SqlBackend) (ext : Str) : List Str :=
  ((b.rows.map (·.1)).filter (fun k => KVSpec.isSuffix ext k)).map (fun k => k.take (k.length - ext.length))
end SqlBackend

/-! ### compression wrappers over any backend given by its three operations -/

structure ByteCodec where
  enc : Bytes → Bytes
  dec : Bytes → Option Bytes

structure BackendOps (β : Type) where
  write : β → Str → Bytes → β
  read : β → Str → Nat → Nat → BRes Bytes
  list : β → Str → List Str

/-- `Flate2Adapter` / `BrotliAdapter` with key suffix `sfx` -/
def wrapOps {β : Type} (c : ByteCodec) (sfx : Str) (o : BackendOps β) : BackendOps β where
  write := fun b k d => o.write b (k ++ sfx) (c.enc d)
  read := fun b k off len =>
    match o.read b (k ++ sfx) 0 0 with
    | .ok raw =>
      (match c.dec raw with
       | none => .err
       | some d =>
         if off = 0 ∧ len = 0 then .ok d
         else if off + len > d.length then .panic
         else .ok ((d.drop off).take len))
    | .err => .err
    | .panic => .panic
  list := fun b ext => o.list b (ext ++ sfx)

def memOps : BackendOps MemBackend := ⟨MemBackend.write, MemBackend.read, MemBackend.list⟩
def fsOps : BackendOps FsBackend := ⟨FsBackend.write, FsBackend.read, FsBackend.list⟩
def sqlOps (c : TextCodec) : BackendOps SqlBackend := ⟨SqlBackend.write c, SqlBackend.read c, SqlBackend.list⟩

end Melda
