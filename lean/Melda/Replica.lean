/-
  Byte level of the replica: builds the `View` of a store (hash gate + parsers:
  `DeltaId::from`, `fetch_raw_delta`, `load_raw_delta`, `try_load_pack`,
  `parse_and_apply_pack`) and serialises blocks (`Delta::to_json`).
  The hash is a parameter `H : Bytes → Str`.
  Import-free.
-/
import Melda.Protocol
import Melda.Pack
import Melda.Adapter
namespace Melda

def DELTA_EXT : Str := ".delta".toList
def PACK_EXT : Str := ".pack".toList

/-- `DeltaId::from`: regex `(\d+)-(\w+)(\.delta)?`, unanchored, leftmost -/
def BlockId.matchAt (s : Str) : Option BlockId :=
  let (ds, r) := Rev.spanP isDigit s
  if ds.isEmpty then none
  else match r with
    | '-' :: r' =>
      let (w, _) := Rev.spanP isWordChar r'
      if w.isEmpty then none else some ⟨natOfDigits ds, w⟩
    | _ => none

def BlockId.parse : Str → Option BlockId
  | [] => none
  | c :: t => match BlockId.matchAt (c :: t) with
    | some b => some b
    | none => BlockId.parse t

def BlockId.key (b : BlockId) : Str := b.render ++ DELTA_EXT

/-- insertion into a sorted duplicate-free list (BTreeSet) -/
def insertSet (lt : α → α → Bool) [DecidableEq α] (x : α) : List α → List α
  | [] => [x]
  | y :: t => if x = y then y :: t else if lt x y then x :: y :: t else y :: insertSet lt x t

def strArr? : List JVal → Option (List Str)
  | [] => some []
  | .str s :: t => (strArr? t).map (s :: ·)
  | _ => none

/-- one record of the change list; `none` = `load_raw_delta` bails out; `some none` = record skipped -/
def loadChange (H : Bytes → Str) : JVal → Option (Option Change)
  | .arr [.str uuid, .str digest] => some (some ⟨uuid, Rev.mk1 digest, none⟩)
  | .arr [.str uuid, .str prev, .str digest] =>
    match Rev.parse prev with
    | some p => some (some ⟨uuid, Rev.new H (p.index + 1) digest (some p), some p⟩)
    | none => none
  | .arr [_, _] => none
  | .arr [_, _, _] => none
  | .arr _ => none            -- invalid_changes_record
  | _ => some none            -- non-array records are skipped

def loadChanges (H : Bytes → Str) : List JVal → Option (List Change)
  | [] => some []
  | c :: t =>
    match loadChange H c, loadChanges H t with
    | some (some ch), some r => some (ch :: r)
    | some none, some r => some r
    | _, _ => none

/-- `load_raw_delta` -/
def loadRawDelta (H : Bytes → Str) (id : BlockId) (o : JObj) : Option Block :=
  let info? : Option (Option JVal) := match objGet ['i'] o with
    | none => some none
    | some (.obj i) => some (some (.obj i))
    | some _ => none
  match info? with
  | none => none
  | some info =>
    let parents? : Option (List BlockId) := match objGet ['p'] o with
      | none => some []
      | some (.arr ps) =>
        match strArr? ps with
        | none => none
        | some ss => ss.foldl (fun acc s => match acc, BlockId.parse s with
            | some l, some b => some (insertSet BlockId.lt b l)
            | _, _ => none) (some [])
      | some _ => none
    match parents? with
    | none => none
    | some parents =>
      if id.index ≠ PState.nextIndex parents then none
      else
        let packs? : Option (List Str) := match objGet ['k'] o with
          | none => some []
          | some (.arr ks) => (strArr? ks).map (fun l => l.foldl (fun acc k => insertSet strLt k acc) [])
          | some _ => none
        match packs? with
        | none => none
        | some packs =>
          let changes? : Option (List Change) := match objGet ['c'] o with
            | some (.arr cs) => loadChanges H cs
            | _ => some []
          match changes? with
          | none => none
          | some changes => some { id := id, parents := parents, packs := packs, changes := changes, info := info }

/-- `fetch_raw_delta` + `load_raw_delta`: the hash gate comes first -/
def fetchBlock (H : Bytes → Str) (kv : KVSpec) (id : BlockId) : Option Block :=
  match kv.read id.key with
  | none => none
  | some bytes =>
    if H bytes ≠ id.digest then none
    else match parseJsonBytes bytes with
      | some (.obj o) => loadRawDelta H id o
      | _ => none

/-- `try_load_pack` + `parse_and_apply_pack`: digests of the objects of a hash-valid pack -/
def loadPackBytes (H : Bytes → Str) (kv : KVSpec) (name : Str) : Option (List (Str × Nat × Nat)) :=
  match kv.read (name ++ PACK_EXT) with
  | none => none
  | some bytes =>
    if H bytes ≠ name then none
    else some ((scanPack bytes).map (fun (o, l) => (H (slice bytes o l), o, l)))

/-- the view of a byte store -/
def viewOf (H : Bytes → Str) (kv : KVSpec) : View :=
  { blockIds := (kv.list DELTA_EXT).filterMap BlockId.parse,
    fetch := fetchBlock H kv,
    packNames := kv.list PACK_EXT,
    loadPack := fun k => (loadPackBytes H kv k).map (fun l => l.map (·.1)) }

/-- `Delta::to_json` -/
def Block.toJson (b : Block) (withChanges : Bool := true) : JVal :=
  let cs : List JVal := b.changes.map (fun c => match c.parent with
    | some p => .arr [.str c.uuid, .str p.render, .str c.rev.digest]
    | none => .arr [.str c.uuid, .str c.rev.digest])
  let l : List (Str × JVal) :=
    (if withChanges && !b.changes.isEmpty then [(['c'], .arr cs)] else []) ++
    (match b.info with | some i => [(['i'], i)] | none => []) ++
    (if b.parents.isEmpty then [] else [(['p'], .arr (b.parents.map (fun p => .str p.render)))]) ++
    (if b.packs.isEmpty then [] else [(['k'], .arr (b.packs.map .str))])
  .obj (objOfList l)

end Melda
