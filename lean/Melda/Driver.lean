/-
  Line-protocol driver for the pure channels (mirrors harness/src/pure.rs `answer`).
  Import-free (links into `mdrv`).
-/
import Melda.Sha256
import Melda.Json
import Melda.Revision
import Melda.RevTree
import Melda.Merge
import Melda.Diff
import Melda.Flatten
import Melda.Lru
import Melda.Pack
import Melda.Adapter
import Melda.Backends
namespace Melda

/-- the real hash -/
def Hreal (b : Bytes) : Str := (sha256hex (ByteArray.mk b.toArray)).toList

def S (s : String) : Str := s.toList
def jstr (s : Str) : JVal := .str s
def jopt (o : Option Str) : JVal := match o with | some s => .str s | none => .null

def hexNib? (c : Char) : Option Nat := hexVal? c
def hexDecode : Str → Option Bytes
  | [] => some []
  | a :: b :: t =>
    match hexNib? a, hexNib? b, hexDecode t with
    | some x, some y, some r => some (UInt8.ofNat (x * 16 + y) :: r)
    | _, _, _ => none
  | _ => none

def hexEncode (b : Bytes) : Str := b.flatMap hexByte

def sortStrsD (l : List Str) : List Str :=
  l.foldl (fun acc s =>
    let rec ins : List Str → List Str
      | [] => [s]
      | x :: xs => if strLt s x then s :: x :: xs else x :: ins xs
    ins acc) []

def revFields (r : Rev) : Str :=
  natStr r.index ++ '|' :: (r.digest ++ '|' :: (r.render ++ '|' :: (if r.isCharcode then ['1'] else ['0'])))

def treeState (t : RevTree) : Str :=
  let entries := t.entries.map (fun e => (e.rev.render, e.parent.map Rev.render, e.staging))
  -- sort by (rev text, parent option, staging) like Rust tuple ordering; revs are unique keys
  let sorted := entries.foldl (fun acc e =>
    let rec ins : List (Str × Option Str × Bool) → List (Str × Option Str × Bool)
      | [] => [e]
      | x :: xs => if strLt e.1 x.1 then e :: x :: xs else x :: ins xs
    ins acc) []
  let ej := JVal.arr (sorted.map (fun (r, p, s) => .arr [jstr r, jopt p, .bool s]))
  if t.validated then
    (JVal.obj (objOfList [(S "l", .arr (t.leafs.map (fun r => jstr r.render))),
                          (S "w", jopt (t.winner.map Rev.render)),
                          (S "s", .bool t.staging), (S "e", ej)])).render
  else
    (JVal.obj (objOfList [(S "unvalidated", .bool true), (S "s", .bool t.staging), (S "e", ej)])).render

def joinWith (sep : Str) : List Str → Str
  | [] => []
  | [x] => x
  | x :: t => x ++ sep ++ joinWith sep t

def treeOps (ops : List JVal) : Str :=
  let step := fun (st : RevTree × List Str) (o : JVal) =>
    let (t, out) := st
    match o with
    | .arr (.str k :: rest) =>
      if k = S "a" ∨ k = S "u" then
        match rest with
        | [.str r, p, .bool stg] =>
          match Rev.parse r with
          | some rv =>
            let par := match p with | .str ps => Rev.parse ps | _ => none
            let (t', b) := if k = S "a" then t.add rv par stg else t.unvalidatedAdd rv par stg
            (t', out ++ [if b then S "1" else S "0", treeState t'])
          | none => (t, out ++ [S "badrev"])
        | _ => (t, out ++ [S "badop"])
      else if k = S "v" then let t' := t.validate; (t', out ++ [treeState t'])
      else if k = S "c" then
        if t.validated then let t' := t.commit; (t', out ++ [treeState t'])
        else (t, out ++ [S "panic", treeState t])
      else if k = S "s" then let t' := t.unstage; (t', out ++ [treeState t'])
      else if k = S "p" then
        match rest with
        | [.str r] =>
          match Rev.parse r with
          | some rv => (t, out ++ [S "p=" ++ ((t.getParent rv).map Rev.render).getD (S "~"), treeState t])
          | none => (t, out ++ [S "badrev"])
        | _ => (t, out ++ [S "badop"])
      else (t, out ++ [S "badop"])
    | _ => (t, out ++ [S "badop"])
  joinWith [';'] (ops.foldl step (RevTree.empty, [])).2

/-- standard base64 (with padding), as the SQLite adapter stores values -/
def b64Char (n : Nat) : Char :=
  if n < 26 then Char.ofNat (65 + n) else if n < 52 then Char.ofNat (97 + n - 26)
  else if n < 62 then Char.ofNat (48 + n - 52) else if n = 62 then '+' else '/'

def base64 : Bytes → Str
  | [] => []
  | [a] => [b64Char (a.toNat / 4), b64Char ((a.toNat % 4) * 16), '=', '=']
  | [a, b] => [b64Char (a.toNat / 4), b64Char ((a.toNat % 4) * 16 + b.toNat / 16), b64Char ((b.toNat % 16) * 4), '=']
  | a :: b :: c :: t =>
    b64Char (a.toNat / 4) :: b64Char ((a.toNat % 4) * 16 + b.toNat / 16) ::
    b64Char ((b.toNat % 16) * 4 + c.toNat / 64) :: b64Char (c.toNat % 64) :: base64 t

def bresStr (r : BRes Bytes) : Str := match r with | .ok d => hexEncode d | .err => S "err" | .panic => S "panic"

/-- one backend model behind the `kv` channel, with what its raw layout looks like -/
structure KvRunner where
  β : Type
  init : β
  ops : BackendOps β
  dump : β → Str

def idCodec : ByteCodec := ⟨id, some⟩
/-- the SQLite text codec: real base64 on the way in; values are never decoded by the model's
    reads (it keeps the bytes next to the text) -/
def sqlCodecPlain : TextCodec := ⟨fun d => hexEncode d, fun t => hexDecode t⟩

def isPrefixOf (p s : Str) : Bool := s.take p.length = p

def kvRunner (backend : Str) : KvRunner :=
  let wrapped := backend.contains '+'
  let sfx : Str := if KVSpec.isSuffix (S "+flate") backend then S ".flate"
                   else if KVSpec.isSuffix (S "+brotli") backend then S ".brotli" else []
  let sortRows := fun (rows : List (Str × Str)) =>
    rows.foldl (fun acc r =>
      let rec ins : List (Str × Str) → List (Str × Str)
        | [] => [r]
        | x :: xs => if strLt r.1 x.1 then r :: x :: xs else x :: ins xs
      ins acc) []
  let showRows := fun (withVal : Bool) (rows : List (Str × Str)) =>
    (JVal.arr ((sortRows rows).map (fun r => if withVal then .arr [jstr r.1, jstr r.2] else .arr [jstr r.1]))).render
  if isPrefixOf (S "fs") backend then
    { β := FsBackend, init := {}, ops := if wrapped then wrapOps idCodec sfx fsOps else fsOps,
      dump := fun b => showRows (!wrapped) (b.files.items.map (fun p => (p.1, hexEncode p.2))) }
  else if isPrefixOf (S "sqlitemem") backend then
    { β := SqlBackend, init := {}, ops := if wrapped then wrapOps idCodec sfx (sqlOps sqlCodecPlain) else sqlOps sqlCodecPlain,
      dump := fun _ => S "[]" }
  else if isPrefixOf (S "sqlite") backend then
    { β := SqlBackend, init := {}, ops := if wrapped then wrapOps idCodec sfx (sqlOps sqlCodecPlain) else sqlOps sqlCodecPlain,
      dump := fun b => showRows (!wrapped) (b.rows.map (fun r => (r.1, match hexDecode r.2 with | some d => base64 d | none => S "?"))) }
  else
    { β := MemBackend, init := {}, ops := if wrapped then wrapOps idCodec sfx memOps else memOps,
      dump := fun _ => S "[]" }

/-- the `kv` channel: the backend's model and the write-once contract (`KVSpec`) are run side by
    side; where the contract defines the answer they must agree (a disagreement is printed) -/
def kvRun (backend : Str) (ops : List JVal) : List Str :=
  let R := kvRunner backend
  let step := fun (st : R.β × KVSpec × List Str) (o : JVal) =>
    let (b, kv, out) := st
    let agree := fun (m : Str) (spec : Str) => if m = spec then m else S "MODEL-SPEC-DISAGREE model " ++ m ++ S " spec " ++ spec
    match o with
    | .arr [.str k, .str key, .str hx] =>
      if k = S "w" then
        match hexDecode hx with
        | some d => (R.ops.write b key d, kv.write key d, out ++ [S "ok"])
        | none => (b, kv, out ++ [S "badhex"])
      else (b, kv, out ++ [S "bad"])
    | .arr [.str k, .str key] =>
      if k = S "r" then
        (b, kv, out ++ [agree (bresStr (R.ops.read b key 0 0)) (match kv.read key with | some d => hexEncode d | none => S "err")])
      else if k = S "l" then
        (b, kv, out ++ [agree (JVal.arr ((sortStrsD (R.ops.list b key)).map jstr)).render (JVal.arr ((sortStrsD (kv.list key)).map jstr)).render])
      else (b, kv, out ++ [S "bad"])
    | .arr [.str k, .str key, off, len] =>
      if k = S "rr" then
        match asNat? off, asNat? len with
        | some o, some l =>
          (b, kv, out ++ [agree (bresStr (R.ops.read b key o l)) (match kv.readRange key o l with | some d => hexEncode d | none => S "err")])
        | _, _ => (b, kv, out ++ [S "bad"])
      else (b, kv, out ++ [S "bad"])
    | .arr [.str k] =>
      if k = S "reopen" then (b, kv, out ++ [S "ok"])
      else if k = S "dump" then (b, kv, out ++ [R.dump b])
      else (b, kv, out ++ [S "bad"])
    | _ => (b, kv, out ++ [S "bad"])
  (ops.foldl step (R.init, KVSpec.empty, [])).2.2

/-- the code keeps the index in a `u32`: a text whose index does not fit is rejected with an error (after the
    repair of D17; before, it aborted).  The model's `Rev.parse` is unbounded; the bound lives here, in the
    line-protocol layer, and indices ≥ 2^32 are outside what the theorems talk about (DESIGN 2.3). -/
def parseRevU32 (s : Str) : Option Rev := (Rev.parse s).bind (fun r => if r.index < 4294967296 then some r else none)

def cmpName : Ordering → Str | .lt => S "lt" | .eq => S "eq" | .gt => S "gt"

def msgPrefix (s : String) : Str := (s.splitOn ":").head!.trimAscii.toString.toList


/-- the harness' `deep_object(kind, d)`: objects nested `d` levels below their top-level values -/
def deepObject (kind d : Nat) : JVal :=
  let rec go : Nat → Nat → JVal × JVal → JVal × JVal
    | 0, _, acc => acc
    | n + 1, i, (v, w) =>
      go n (i + 1) (.arr [v],
        if i % 3 = 0 then .obj [(S "flat", .num (S "1")), (S "k", w)] else .arr [.num (S "0"), w])
  let (v, w) := go d 0 (.num (S "1"), .obj [(S "s", .str (S "x"))])
  if kind = 0 then .obj [(S "n", v)]
  else if kind = 1 then .obj [(S "a", .num (S "1")), (S "n", w), (S "z", .arr [.arr []])]
  else if kind = 2 then .obj [(S "a", v), (S "b", .obj [(S "c", v)])]
  else .obj []

def answer (req : JVal) : Str :=
  match req with
  | .arr (.str op :: args) =>
    if op = S "rev.parse" then
      match args with
      | [.str s] => match parseRevU32 s with
        | some r => S "ok " ++ revFields r
        | none => S "err"
      | _ => S "badreq"
    else if op = S "rev.mk1" then
      match args with | [.str d] => (Rev.new Hreal 1 d none).render | _ => S "badreq"
    else if op = S "rev.upd" ∨ op = S "rev.del" ∨ op = S "rev.res" then
      match args with
      | .str p :: rest =>
        match parseRevU32 p with
        | none => S "err"
        | some pr =>
          if op = S "rev.upd" then
            match rest with | [.str d] => (Rev.upd Hreal d pr).render | _ => S "badreq"
          else if op = S "rev.del" then (Rev.del Hreal pr).render
          else (Rev.res Hreal pr).render
      | _ => S "badreq"
    else if op = S "rev.cmp" then
      match args with
      | [.str a, .str b] =>
        match parseRevU32 a, parseRevU32 b with
        | some x, some y => cmpName (Rev.cmp x y) ++ S " " ++ (if x = y then S "1" else S "0")
        | _, _ => S "err"
      | _ => S "badreq"
    else if op = S "tree" then
      match args with | [.arr ops] => treeOps ops | _ => S "badreq"
    else if op = S "merge" then
      match args with | [.arr m, .arr n] => (JVal.arr (mergeArrays m n)).render | _ => S "badreq"
    else if op = S "diff" then
      match args with
      | [.arr a, .arr b] => match makeDiffPatch a b with
        | some p => (JVal.arr p).render
        | none => S "panic"
      | _ => S "badreq"
    else if op = S "patch" then
      match args with
      | [.arr a, .arr p] => match applyDiffPatch a p with
        | .ok l => S "ok " ++ (JVal.arr l).render
        | .err e => S "err " ++ msgPrefix e
        | .panic _ => S "panic"
      | _ => S "badreq"
    else if op = S "flat" then
      match args with
      | [doc] => match flatten Hreal [] doc [] with
        | .ok (c, root) => S "ok " ++ root.render ++ S " " ++ (JVal.obj c).render
        | .error e => S "panic " ++ msgPrefix e
      | _ => S "badreq"
    else if op = S "unflat" then
      match args with
      | [.obj pool, v] => match unflatten (unflattenFuel pool v) pool v with
        | .ok _ r => S "ok " ++ r.render
        | .panic m => S "panic " ++ msgPrefix m
        | .fuel => S "fuel"
      | _ => S "badreq"
    else if op = S "digest" then
      match args with
      | [.obj o] => match digestObject Hreal o with
        | .ok d => S "ok " ++ d
        | .error e => S "err " ++ msgPrefix e
      | _ => S "badreq"
    else if op = S "json" then
      match args with
      | [.str t] => match parseJsonLim t with
        | some v => S "ok " ++ v.render
        | none => S "err"
      | _ => S "badreq"
    else if op = S "toodeep" then
      match args with
      | [k, d] => (match asNat? k, asNat? d with
        | some kind, some depth => (match deepObject kind depth with
          | .obj o => if isTooDeep o then S "true" else S "false"
          | _ => S "badreq")
        | _, _ => S "badreq")
      | _ => S "badreq"
    else if op = S "sha" then
      match args with | [.str t] => Hreal (utf8 t) | _ => S "badreq"
    else if op = S "scan" then
      match args with
      | [.str h] => match hexDecode h with
        | some bytes =>
          let idx := (scanPack bytes).map (fun (o, l) => (Hreal (slice bytes o l), o, l))
          -- HashMap semantics: a later object with the same digest replaces the earlier one; sort by digest
          let m := idx.foldl (fun (acc : List (Str × Nat × Nat)) e =>
            let rec ins : List (Str × Nat × Nat) → List (Str × Nat × Nat)
              | [] => [e]
              | x :: xs => if e.1 = x.1 then e :: xs else if strLt e.1 x.1 then e :: x :: xs else x :: ins xs
            ins acc) []
          (JVal.arr (m.map (fun (d, o, l) => .arr [jstr d, numJ o, numJ l]))).render
        | none => S "badhex"
      | _ => S "badreq"
    else if op = S "rev.obj" then
      match args with
      | [.obj o] => match digestObject Hreal o with
        | .ok d =>
          let r := Rev.mk1 d
          let s := r.render
          s ++ S " -> " ++ (match parseRevU32 s with | some r2 => revFields r2 | none => S "err")
        | .error e => S "err " ++ msgPrefix e
      | _ => S "badreq"
    else if op = S "kv" then
      match args with
      | [.str backend, .arr ops] => joinWith [';'] (kvRun backend ops)
      | _ => S "badreq"
    else S "unknown-op"
  | _ => S "badreq"

end Melda
