/-
  Lock structure of `melda.rs` / `datastorage.rs` as data, and a checker for it (C08, part 1).
  `tools/lockx.py` re-extracts `Melda/Gen/LockProgs.lean` from the Rust source on every run.

  Threads: one client thread, plus rayon workers that exist only inside a `par` section, during
  which the parent waits while still holding its guards.  None of `std::sync::{Mutex, RwLock}` is
  re-entrant.  A thread is *stuck for ever* when it acquires a lock that conflicts with a guard held
  by itself, or (worker) with a guard held by the waiting parent.
  Import-free.
-/
namespace Melda.Lock

/-- lock classes: the four fields of `Melda`, the two of `DataStorage`/adapter, the per-object tree
    mutexes, the per-block rwlocks, function-local mutexes, and anything the translator cannot name -/
inductive LClass | docs | data | deltas | acache | adapter | dcache | tree | delta | localm | unknown
deriving DecidableEq, Repr

inductive Mode | R | W | M
deriving DecidableEq, Repr

/-- whose field: the receiver (`self`) or the other replica of `meld` -/
inductive Inst | self | other
deriving DecidableEq, Repr

structure Lk where
  cls : LClass
  inst : Inst
  mode : Mode
deriving DecidableEq, Repr

inductive Stmt where
  /-- acquire; `bind = some n`: guard bound to local variable number `n` (lives until `drop n` or the end
      of the enclosing `scope`); `none`: temporary (lives until the end of the enclosing `stmt`) -/
  | acq (l : Lk) (bind : Option Nat)
  | drop (n : Nat)
  /-- call of function number `f` (index into the program table) on `self` or `other` -/
  | call (f : Nat) (on : Inst)
  | stmt (body : List Stmt)
  | scope (body : List Stmt)
  | loop (body : List Stmt)
  | par (body : List Stmt)
  | branch (alts : List (List Stmt))

structure Fn where
  name : String
  pub : Bool
  body : List Stmt

/-- a guard held by a thread: the lock, how it is released, and at which nesting depth it was taken -/
structure Held where
  l : Lk
  bind : Option Nat
  depth : Nat
deriving DecidableEq

def instanceClass (c : LClass) : Bool := c = .tree || c = .delta

/-- does acquiring `a` while `h` is held (by the same thread, or by the waiting parent) block for ever?
    `allowNest`: instance-indexed classes for which nesting is known to address a different instance
    (only ever non-empty at a whitelisted call site, see `safe`). -/
def conflicts (allowNest : List LClass) (h a : Lk) : Bool :=
  if h.cls = .localm || a.cls = .localm then false
  else if h.cls = .unknown || a.cls = .unknown then true
  else if h.cls ≠ a.cls || h.inst ≠ a.inst then false
  else if h.mode = .R && a.mode = .R then false
  else if instanceClass a.cls && allowNest.contains a.cls then false
  else true

def flipInst (on : Inst) (l : Lk) : Lk :=
  match on with
  | .self => l
  | .other => { l with inst := match l.inst with | .self => .other | .other => .self }

/-- release temporaries (at the end of a `stmt`) / bound guards (at the end of a `scope`) taken at `depth` or deeper -/
def releaseTemps (held : List Held) (depth : Nat) : List Held := held.filter (fun h => !(h.bind.isNone && h.depth ≥ depth))
def releaseScope (held : List Held) (depth : Nat) : List Held := held.filter (fun h => h.depth < depth)

/-- Abstract walk of a body. `may f` = locks function `f` may acquire (transitively), relative to its own
    receiver. `parent` = guards of the waiting parent thread (inside `par`). Returns `none` when some
    acquisition may block for ever, otherwise the guards held at the end. -/
def walk (may : Nat → List Lk) (allowCall : Nat → List LClass) (parent : List Lk) :
    Nat → List Held → List Stmt → Option (List Held)
  | _, held, [] => some held
  | depth, held, s :: rest =>
    let ok (allow : List LClass) (a : Lk) (held : List Held) : Bool :=
      !(held.any (fun h => conflicts allow h.l a)) && !(parent.any (fun p => conflicts allow p a))
    match s with
    | .acq l b => if ok [] l held then walk may allowCall parent depth (⟨l, b, depth⟩ :: held) rest else none
    | .drop n => walk may allowCall parent depth (held.filter (fun h => h.bind ≠ some n)) rest
    | .call f on =>
      if (may f).all (fun a => ok (allowCall f) (flipInst on a) held) then walk may allowCall parent depth held rest else none
    | .stmt body =>
      match walk may allowCall parent (depth + 1) held body with
      | some held' => walk may allowCall parent depth (releaseScope (releaseTemps held' (depth + 1)) (depth + 1)) rest
      | none => none
    | .scope body =>
      match walk may allowCall parent (depth + 1) held body with
      | some held' => walk may allowCall parent depth (releaseScope held' (depth + 1)) rest
      | none => none
    | .loop body =>
      -- every iteration starts with the guards held at loop entry (bodies are block scopes); a guard
      -- dropped inside the body is conservatively regarded as still held afterwards
      match walk may allowCall parent (depth + 1) held body with
      | some _ => walk may allowCall parent depth held rest
      | none => none
    | .par body =>
      match walk may allowCall (parent ++ held.map (·.l)) 0 [] body with
      | some _ => walk may allowCall parent depth held rest
      | none => none
    | .branch alts =>
      -- every alternative must be safe; drops inside an alternative are local to it (holding more
      -- afterwards is the conservative direction)
      let rec goAlts : List (List Stmt) → Bool
        | [] => true
        | a :: as => (walk may allowCall parent (depth + 1) held a).isSome && goAlts as
      if goAlts alts then walk may allowCall parent depth held rest else none

/-- locks acquired syntactically in a body (direct), and calls made -/
def directAcqs : List Stmt → List Lk
  | [] => []
  | .acq l _ :: r => l :: directAcqs r
  | .stmt b :: r | .scope b :: r | .loop b :: r | .par b :: r => directAcqs b ++ directAcqs r
  | .branch alts :: r =>
    let rec goA : List (List Stmt) → List Lk
      | [] => []
      | a :: as => directAcqs a ++ goA as
    goA alts ++ directAcqs r
  | _ :: r => directAcqs r

def directCalls : List Stmt → List (Nat × Inst)
  | [] => []
  | .call f on :: r => (f, on) :: directCalls r
  | .stmt b :: r | .scope b :: r | .loop b :: r | .par b :: r => directCalls b ++ directCalls r
  | .branch alts :: r =>
    let rec goC : List (List Stmt) → List (Nat × Inst)
      | [] => []
      | a :: as => directCalls a ++ goC as
    goC alts ++ directCalls r
  | _ :: r => directCalls r

/-- `table` is closed: it contains every direct acquisition of `f` and, for every call, the callee's
    entries mapped to the caller's receiver (a post-fixpoint of the may-acquire equations) -/
def closed (fns : List Fn) (table : List (List Lk)) : Bool :=
  (List.range fns.length).all (fun i =>
    match fns[i]?, table[i]? with
    | some f, some t =>
      (directAcqs f.body).all (t.contains ·) &&
      (directCalls f.body).all (fun c => match table[c.1]? with
        | some tc => tc.all (fun a => t.contains (flipInst c.2 a))
        | none => false)
    | _, _ => false)

/-- `allow`: whitelisted call sites (caller, callee, class): nested acquisition of an instance-indexed
    lock of that class by that call is known to address a different instance -/
def allowFor (allow : List (Nat × Nat × LClass)) (caller : Nat) (callee : Nat) : List LClass :=
  allow.filterMap (fun x => if x.1 = caller ∧ x.2.1 = callee then some x.2.2 else none)

/-- the whole check: the table is closed and every function body walks safely from no guards held -/
def safe (fns : List Fn) (table : List (List Lk)) (allow : List (Nat × Nat × LClass)) : Bool :=
  closed fns table &&
  (List.range fns.length).all (fun i => match fns[i]? with
    | some f => (walk (fun j => table.getD j [⟨.unknown, .self, .W⟩]) (allowFor allow i) [] 0 [] f.body).isSome
    | none => false)

end Melda.Lock
