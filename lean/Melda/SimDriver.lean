/-
  Replays the primitive-level trace of a multi-replica history (harness/src/sim.rs `emit`) through
  the protocol model and compares the model's state with the implementation's after every step.
  Import-free (links into `mdrv`).
-/
import Melda.Driver
import Melda.Replica
import Melda.Flatten
import Melda.Doc
namespace Melda

def sortStrs (l : List Str) : List Str :=
  l.foldl (fun acc s =>
    let rec ins : List Str → List Str
      | [] => [s]
      | x :: xs => if strLt s x then s :: x :: xs else x :: ins xs
    ins acc) []

def statusName : Status → Str
  | .pending => S "pending" | .ready => S "ready" | .applied => S "applied" | .blocked => S "blocked"

def treeObs (t : RevTree) : JVal :=
  let es := t.entries.map (fun e => (e.rev.render, e.parent.map Rev.render, e.staging))
  let sorted := es.foldl (fun acc e =>
    let rec ins : List (Str × Option Str × Bool) → List (Str × Option Str × Bool)
      | [] => [e]
      | x :: xs => if strLt e.1 x.1 then e :: x :: xs else x :: ins xs
    ins acc) []
  .obj (objOfList [
    (S "e", .arr (sorted.map (fun (r, p, s) => .arr [jstr r, jopt p, .bool s]))),
    (S "w", jopt (t.winner.map Rev.render)),
    (S "l", .arr ((sortStrs (t.leafs.map Rev.render)).map jstr))])

def resJson (r : Res JVal) : JVal :=
  match r with
  | .ok v => .obj [(S "ok", v)]
  | .err _ => .obj [(S "err", jstr (S "-"))]      -- the class only: messages are not part of any property
  | .panic _ => .obj [(S "panic", jstr (S "-"))]

def obsOf (st : PState) (readRes : JVal) (stageKeys : List Str) : JVal :=
  .obj (objOfList [
    (S "deltas", .obj (objOfList (st.deltas.map (fun p => (p.1.id.render, jstr (statusName p.2)))))),
    (S "trees", .obj (objOfList (st.docs.map (fun p => (p.1, treeObs p.2))))),
    (S "anchors", .arr ((sortStrs (st.anchors.map BlockId.render)).map jstr)),
    (S "objects", .arr ((sortStrs st.objects.eraseDups).map jstr)),
    (S "packs", .arr ((sortStrs st.appliedPacks).map jstr)),
    (S "read", readRes),
    (S "stage", .arr ((sortStrs stageKeys).map jstr))])

structure SimRep where
  kv : KVSpec := {}
  d : DState := {}
  /-- parsed bodies of the objects of every pack seen so far -/
  bodies : List (Str × JObj) := []
  seenPacks : List Str := []

/-- committed object bodies: only digests in the replica's index are served -/
def SimRep.src (rep : SimRep) (st : PState) : Src := fun dg =>
  if st.objects.contains dg then (rep.bodies.find? (fun p => p.1 = dg)).map (·.2) else none

/-- parse the bodies of packs that became applied -/
def SimRep.learnPacks (H : Bytes → Str) (rep : SimRep) (kv : KVSpec) (st : PState) : SimRep :=
  st.appliedPacks.foldl (fun (rep : SimRep) k =>
    if rep.seenPacks.contains k then rep
    else match kv.read (k ++ PACK_EXT) with
      | none => rep
      | some bytes =>
        let objs := (scanPack bytes).filterMap (fun (o, l) =>
          let sl := slice bytes o l
          match parseJsonBytes sl with
          | some (.obj body) => some (H sl, body)
          | _ => none)
        { rep with bodies := rep.bodies ++ objs, seenPacks := k :: rep.seenPacks }) rep

def addItems (kv : KVSpec) (items : JObj) : Option KVSpec :=
  items.foldl (fun acc p => match acc, p.2 with
    | some kv, .str hx => (hexDecode hx).map (kv.write p.1)
    | _, _ => none) (some kv)

def truncStr (s : Str) : Str := if s.length > 1500 then s.take 1500 ++ S "…" else s

def diffKey (x y : JObj) : Option Str :=
  ((x.map (·.1) ++ y.map (·.1)).eraseDups).find? (fun k => (objGet k x).map JVal.render ≠ (objGet k y).map JVal.render)

def showSide (v : Option JVal) : Str := match v with | some u => truncStr u.render | none => S "<absent>"

/-- first place (two levels deep) where two observation objects differ -/
def firstDiff (a b : JVal) : Str :=
  match a, b with
  | .obj x, .obj y =>
    match diffKey x y with
    | some k =>
      match objGet k x, objGet k y with
      | some (.obj u), some (.obj v) =>
        (match diffKey u v with
         | some k2 => k ++ S "/" ++ k2 ++ S ": model " ++ showSide (objGet k2 u) ++ S " impl " ++ showSide (objGet k2 v)
         | none => k)
      | u, v => k ++ S ": model " ++ showSide u ++ S " impl " ++ showSide v
    | none => S "?"
  | _, _ => S "model " ++ truncStr a.render ++ S " impl " ++ truncStr b.render

def parseIds (l : List JVal) : List BlockId := l.filterMap (fun v => match v with | .str s => BlockId.parse s | _ => none)

/-- entries of the trees reported by the implementation, as model trees (validated) -/
def treesOfObs (trees : JObj) : List (Str × RevTree) :=
  trees.map (fun p =>
    let es : List RtEntry := match objGet (S "e") (p.2.asObj?.getD []) with
      | some (.arr l) => l.filterMap (fun e => match e with
        | .arr [.str r, par, .bool stg] =>
          (Rev.parse r).map (fun rv => ⟨rv, (match par with | .str ps => Rev.parse ps | _ => none), stg⟩)
        | _ => none)
      | _ => []
    let t : RevTree := { entries := es, staging := es.any (·.staging), validated := false }
    (p.1, t.validate))

def committedEntries (docs : List (Str × RevTree)) : List (Str × Str × Option Str) :=
  docs.flatMap (fun p => (p.2.entries.filter (fun e => !e.staging)).map (fun e => (p.1, e.rev.render, e.parent.map Rev.render)))

def sameSet [DecidableEq β] (a b : List β) : Bool := a.all (b.contains ·) && b.all (a.contains ·)

/-- one line of the trace. Returns the new replicas and the verdict line. -/
def simStep (H : Bytes → Str) (reps : Array SimRep) (line : JVal) : Array SimRep × Str :=
  match line with
  | .obj o =>
    let prim := ((objGet (S "p") o).bind JVal.asStr?).getD []
    let r := ((objGet (S "r") o).bind asNat?).getD 0
    let res := ((objGet (S "res") o).bind JVal.asStr?).getD []
    let items := ((objGet (S "items") o).bind JVal.asObj?).getD []
    let obs := (objGet (S "obs") o).getD .null
    if prim = S "init" then
      let n := ((objGet (S "n") o).bind asNat?).getD 0
      let cap := ((objGet (S "acap") o).bind asNat?).getD 16
      (Array.replicate n { d := { acache := { cap := cap } } }, S "ok")
    else
    match reps[r]? with
    | none => (reps, S "MISMATCH bad replica index")
    | some rep =>
      match addItems rep.kv items with
      | none => (reps, S "MISMATCH bad items")
      | some kv =>
        let v := viewOf H kv
        -- finish with a new document-level state
        let finishD := fun (d' : DState) (extra : Str) =>
          let rep1 := (SimRep.learnPacks H { rep with kv := kv } kv d'.p)
          let rd := DState.read (rep1.src d'.p) d'
          let (rj, d'') : JVal × DState := match rd with
            | .ok (v, c) => (resJson (.ok v), { d' with acache := c })
            | .err e => (resJson (.err e), d')
            | .panic m => (resJson (.panic m), d')
          let mo := obsOf d''.p rj (d''.stage.map (·.1))
          let reps' := reps.set! r { rep1 with d := d'' }
          if mo.render = obs.render then
            (reps', if extra.isEmpty then S "ok" else S "MISMATCH " ++ extra)
          else (reps', S "MISMATCH " ++ prim ++ S " state: " ++ firstDiff mo obs ++ (if extra.isEmpty then [] else S " ; " ++ extra))
        let finish := fun (st' : PState) (extra : Str) => finishD { rep.d with p := st' } extra
        let expectRes := fun (ok : Bool) => if (res = S "ok") = ok then ([] : Str) else S "result class: model " ++ (if ok then S "ok" else S "err") ++ S " impl " ++ res
        let st := rep.d.p
        let src := rep.src st
        let classOf := fun {α : Type} (x : Res α) => match x with | .ok _ => S "ok" | .err _ => S "err" | .panic _ => S "panic"
        if prim = S "new" then
          let cap := rep.d.acache.cap
          match PState.reload {} v with
          | .ok st' => finishD { p := st', stage := [], acache := { cap := cap } } (expectRes true)
          | .error _ => ((reps.set! r { rep with kv := kv, d := { acache := { cap := cap } } }), if res = S "err" then S "ok" else S "MISMATCH new: model fails, impl " ++ res)
        else if prim = S "reload" then
          match DState.reload rep.d v with
          | .ok d' => finishD d' (expectRes true)
          | .error _ => finish st (expectRes false)
        else if prim = S "refresh" then
          match PState.refresh st v with
          | .ok st' => finish st' (expectRes true)
          | .error _ => finish st (expectRes false)
        else if prim = S "until" then
          let anchors := parseIds (((objGet (S "anchors") o).bind JVal.asArr?).getD [])
          match DState.reloadUntil rep.d v anchors with
          | .ok d' => finishD d' (expectRes true)
          | .error _ =>
            ((reps.set! r { rep with kv := kv }), if res = S "err" then S "ok-err" else S "MISMATCH until: model fails, impl " ++ res)
        else if prim = S "unstage" then finishD { rep.d with p := st.unstage, stage := [] } []
        else if prim = S "put" then finish st []
        else if prim = S "update" then
          match (objGet (S "doc") o) with
          | some (.obj doc) =>
            (match DState.updateG H src rep.d doc with
             | .ok (d', _) => finishD d' (expectRes true)
             | .err _ => finish st (expectRes false)
             | x => finish st (S "update: model " ++ classOf x ++ S " impl " ++ res))
          | _ => (reps, S "MISMATCH update without doc")
        else if prim = S "delete" then
          match (objGet (S "uuid") o).bind JVal.asStr? with
          | some u =>
            (match DState.deleteObject H rep.d u with
             | .ok (d', _) => finishD d' []
             | x => finish st (S "delete: model " ++ classOf x))
          | none => (reps, S "MISMATCH delete without uuid")
        else if prim = S "objapi" then
          -- direct calls of create_object / update_object / remove_object
          match (objGet (S "call") o).bind JVal.asStr?, (objGet (S "uuid") o).bind JVal.asStr? with
          | some call, some u =>
            let body := ((objGet (S "obj") o).bind JVal.asObj?).getD []
            let r : Res (DState × Option Str) :=
              if call = S "create" then DState.createObjectG H rep.d u body
              else if call = S "update" then DState.updateObjectG H src rep.d u body
              else DState.removeObject H rep.d u
            let ret := fun (x : Option Str) => match x with | some s => jstr s | none => JVal.null
            (match r with
             | .ok (d', rv) =>
               let mineR : Str := (ret rv).render
               let implR : Str := ((objGet (S "ret") o).getD JVal.null).render
               let e : Str := if (mineR == implR) = true then [] else S "returned revision differs: model " ++ mineR
               finishD d' (expectRes true ++ e)
             | .err _ => finish st (expectRes false)
             | .panic _ => finish st (if res = S "panic" then [] else S "objapi: model panics, impl " ++ res))
          | _, _ => (reps, S "MISMATCH objapi without call/uuid")
        else if prim = S "resolve" then
          match (objGet (S "uuid") o).bind JVal.asStr?, (objGet (S "rev") o).bind JVal.asStr? with
          | some u, some rv =>
            (match DState.resolveAs H src rep.d u rv with
             | .ok (d', _) => finishD d' (expectRes true)
             | .err _ => finish st (expectRes false)
             | .panic _ => finish st (if res = S "panic" then [] else S "resolve: model panics, impl " ++ res))
          | _, _ => (reps, S "MISMATCH resolve without uuid/rev")
        else if prim = S "snapshot" then
          match DState.snapshot H src rep.d with
          | .ok d' => finishD d' (expectRes true)
          | x => finish st (S "snapshot: model " ++ classOf x ++ S " impl " ++ res)
        else if prim = S "meld" then
          let from_ := ((objGet (S "from") o).bind asNat?).getD 0
          match reps[from_]? with
          | none => (reps, S "MISMATCH bad source replica")
          | some other =>
            let (bids, packs) := PState.meldKeys st other.d.p
            let otherKeys := other.kv.items.map (·.1)
            let extraKeys := otherKeys.filter (fun k => !KVSpec.isSuffix DELTA_EXT k && !KVSpec.isSuffix PACK_EXT k && (rep.kv.read k).isNone)
            let expect := bids.map BlockId.key ++ packs.map (· ++ PACK_EXT) ++ extraKeys
            let expectNew := expect.filter (fun k => (rep.kv.read k).isNone)
            let got := items.map (·.1)
            let bytesOk := items.all (fun p => match p.2 with
              | .str hx => (hexDecode hx) = other.kv.read p.1
              | _ => false)
            -- `partial`: the receiver's storage failed some writes; what was written is a subset of what meld selects
            let setOk := if res = S "partial" then got.all (expectNew.contains ·) else sameSet expectNew got
            finish st ((if setOk then [] else S "meld wrote " ++ (JVal.arr (got.map jstr)).render ++ S " model expects " ++ (JVal.arr (expectNew.map jstr)).render)
                           ++ (if bytesOk then [] else S " meld bytes differ from the source"))
        else if prim = S "commit" then
          let infoReq : Option JVal := match objGet (S "info") o with | some (.obj i) => some (.obj i) | _ => none
          if !st.hasStaging then
            finish st (if res = S "none" then [] else S "commit: nothing staged in the model, impl " ++ res)
          else if DState.commitRefusesInfo infoReq then
            -- the nesting guard: refused before anything is resolved or written
            finish st ((if res = S "refused" || res = S "err" then [] else S "commit: the model refuses the information (nested too deeply), impl " ++ res)
                       ++ (if items.isEmpty then [] else S " ; a refused commit wrote items"))
          else if res = S "refused" then
            finish st (S "commit: the implementation refused the information as nested too deeply, the model accepts it")
          else
            match DState.autoResolve H src rep.d with
            | .err _ => finish st (S "commit: automatic resolution fails in the model")
            | .panic _ => finish st (if res = S "panic" then [] else S "commit: automatic resolution panics in the model, impl " ++ res)
            | .ok d1 =>
              let stagedDigests := d1.stage.map (·.1)
              let writtenPacks := (items.map (·.1)).filterMap (fun k =>
                if KVSpec.isSuffix PACK_EXT k then some (k.take (k.length - PACK_EXT.length)) else none)
              -- the pack this call produced: named by the block when there is one; otherwise the pack
              -- that appeared in storage, or (write-once storage: an identical pack may already exist)
              -- an unapplied pack holding exactly the staged objects, if the implementation's stage is empty
              let implStageEmpty := match objGet (S "stage") (obs.asObj?.getD []) with | some (.arr []) => true | _ => false
              let blockPacks : Option (List Str) :=
                if res = S "ok" then
                  (((objGet (S "id") o).bind JVal.asStr?).bind BlockId.parse).bind (fun id => (fetchBlock H kv id).map (·.packs))
                else none
              -- `DataStorage::pack` produces a pack iff the data stage is not empty; its bytes are determined by the
              -- staged objects and their (hash-map) order; storage is write-once, so the pack may already exist -
              -- even already APPLIED by this replica (an orphan staged body whose twin arrived in a foreign pack) -
              -- and two stored packs may hold the same objects in different orders.  With a block: the pack it
              -- names.  Without (block write failed): the pack that appeared; else a stored pack holding exactly the
              -- staged objects, preferring the one the implementation reports as applied.
              let implPacks : List Str := match objGet (S "packs") (obs.asObj?.getD []) with
                | some (.arr l) => l.filterMap JVal.asStr?
                | _ => []
              let holdsStage := fun (k : Str) => match loadPackBytes H kv k with
                | some l => sameSet (l.map (·.1)) stagedDigests
                | none => false
              let newPacks : List Str :=
                if stagedDigests.isEmpty then []
                else match blockPacks with
                | some ps => ps
                | none =>
                  if !writtenPacks.isEmpty then writtenPacks
                  else if implStageEmpty then
                    let cands := (kv.list PACK_EXT).filter holdsStage
                    let pref := cands.filter (fun k => implPacks.contains k && !d1.p.appliedPacks.contains k)
                    let pref2 := cands.filter (fun k => implPacks.contains k)
                    ((if !pref.isEmpty then pref else if !pref2.isEmpty then pref2 else cands).take 1)
                  else []
              -- a pack produced by this call is indexed and empties the data stage, even if the block write fails
              let (d2, packObjs) : DState × List Str := newPacks.foldl (fun (acc : DState × List Str) k =>
                match loadPackBytes H kv k with
                | some l =>
                  let newObjs := (l.map (·.1)).filter (fun dg => !acc.1.p.objects.contains dg)
                  ({ acc.1 with p := { acc.1.p with objects := acc.1.p.objects ++ newObjs,
                                                     appliedPacks := if acc.1.p.appliedPacks.contains k then acc.1.p.appliedPacks else acc.1.p.appliedPacks ++ [k] },
                                stage := [] },
                   acc.2 ++ l.map (·.1))
                | none => acc) (d1, [])
              let ePack := if newPacks.isEmpty then []
                           else if sameSet packObjs stagedDigests then [] else S "pack objects differ from the staged objects; "
              if res = S "err" then finishD d2 ePack
              else if res = S "none" then finishD d2 (S "commit reported nothing although the model has staged entries")
              else
                match ((objGet (S "id") o).bind JVal.asStr?).bind BlockId.parse with
                | none => (reps, S "MISMATCH commit without id")
                | some id =>
                  match fetchBlock H kv id with
                  | none => finishD d2 (S "committed block does not pass the model's hash gate / parser")
                  | some b =>
                    let staged := PState.stagedChanges d2.p.docs
                    let e1 := if sameSet b.parents st.anchors then [] else S "parents are not the previous heads; "
                    let e2 := if sameSet b.changes staged then [] else S "change records differ from the staged revisions; "
                    let e3 := if b.packs.all (fun k => (loadPackBytes H kv k).isSome) then [] else S "named pack missing or invalid; "
                    let e4 := if (items.map (·.1)).all (fun k => k = id.key ∨ b.packs.any (fun p => p ++ PACK_EXT = k)) then [] else S "commit wrote unexpected items; "
                    let e5 := if PState.changesReadable d2.p.objects b.changes then [] else S "a committed revision has no readable object; "
                    let e6 := if writtenPacks.all (b.packs.contains ·) then [] else S "a pack was written that the block does not name; "
                    let e7 := if d2.stage.isEmpty then [] else S "staged objects were not packed; "
                    -- literal comparison: the model's commit, run with the iteration orders found in the
                    -- implementation's bytes, must produce exactly those bytes and names
                    let info : Option JVal := match objGet (S "info") o with | some (.obj i) => some (.obj i) | _ => none
                    let packOrder : List Str := match newPacks with
                      | [k] => ((loadPackBytes H kv k).getD []).map (·.1)
                      | _ => []
                    let objOrder : List (Str × JObj) := packOrder.filterMap (fun dg => d1.stage.find? (fun p => p.1 = dg))
                    let out := DState.commitWrites H d1 info objOrder b.changes
                    let e8 := if objOrder.length = packOrder.length then [] else S "pack holds objects the model has not staged; "
                    let e9 := if out.block.id = id then [] else S "block identifier differs: model " ++ out.block.id.render ++ S "; "
                    let e10 := if out.writes.all (fun w => kv.read w.1 = some w.2) then [] else S "bytes written differ from the model's; "
                    let e11 := if writtenPacks.isEmpty || out.packName = writtenPacks.head? then [] else S "pack name differs; "
                    let p' := PState.validateAll { d2.p with deltas := PState.insertDelta b .applied d2.p.deltas, docs := d2.p.docs.map (fun p => (p.1, p.2.commit)) }
                    finishD { d2 with p := p', stage := [] } (e1 ++ e2 ++ e3 ++ e4 ++ e5 ++ e6 ++ e7 ++ e8 ++ e9 ++ e10 ++ e11 ++ ePack)
        else if prim = S "export" then
          -- `stage()`: bodies compared literally, change records as a set (hash-map order inside a tree)
          let impl := (objGet (S "stage") o).getD .null
          let mine := (DState.stageExport rep.d).getD .null
          let part := fun (v : JVal) (k : Str) => (objGet k (v.asObj?.getD [])).getD .null
          let e1 := if (part impl ['o']).render = (part mine ['o']).render then [] else S "exported object bodies differ; "
          let recs := fun (v : JVal) => ((part v ['c']).asArr?.getD []).map JVal.render
          let e2 := if sameSet (recs impl) (recs mine) then [] else S "exported change records differ; "
          finish st (e1 ++ e2)
        else if prim = S "replay" then
          match DState.replayStage H rep.d ((objGet (S "stage") o).getD .null) with
          | .ok d' => finishD d' (expectRes true)
          | .err _ => finish st (expectRes false)
          | .panic _ => finish st (S "replay: model panics")
        else if prim = S "adopt" then
          -- replay of an exported stage: the model takes over the reported trees and staged bodies
          -- after checking that committed entries are untouched and re-deriving leaves/winner
          let trees := ((objGet (S "trees") (obs.asObj?.getD [])).bind JVal.asObj?).getD []
          let docs' := treesOfObs trees
          let e1 := if sameSet (committedEntries docs') (committedEntries st.docs) then [] else S "a staging operation changed committed revisions"
          let bodies := ((objGet (S "bodies") o).bind JVal.asObj?).getD []
          let stage' : List (Str × JObj) := bodies.filterMap (fun p => match p.2 with | .obj b => some (p.1, b) | _ => none)
          finishD { rep.d with p := { st with docs := docs' }, stage := stage' } e1
        else (reps, S "MISMATCH unknown primitive " ++ prim)
  | _ => (reps, S "MISMATCH bad line")

/-- `probe`: a fresh replica opened on a complete store given in the line (`store`), typically a DAMAGED copy of
    a replica's storage (C10).  Answered by the `new` primitive on a scratch replica; the replicas of the
    history are untouched.  When the implementation reported an error nothing is compared (the property allows
    an error on damaged storage). -/
def simStepP (H : Bytes → Str) (reps : Array SimRep) (line : JVal) : Array SimRep × Str :=
  match line with
  | .obj o =>
    if (objGet (S "p") o).bind JVal.asStr? = some (S "probe") then
      let r := ((objGet (S "r") o).bind asNat?).getD 0
      let cap := match reps[r]? with | some rep => rep.d.acache.cap | none => 16
      if (objGet (S "res") o).bind JVal.asStr? = some (S "err") then (reps, S "ok-err")
      else
        let store := (objGet (S "store") o).getD (.obj [])
        let line' := JVal.obj (objInsert (S "p") (.str (S "new")) (objInsert (S "r") (.num (S "0")) (objInsert (S "items") store o)))
        (reps, (simStep H #[{ d := { acache := { cap := cap } } }] line').2)
    else simStep H reps line
  | _ => simStep H reps line

end Melda
