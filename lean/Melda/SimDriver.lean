/-
  Replays the primitive-level trace of a multi-replica history (harness/src/sim.rs `emit`) through
  the protocol model and compares the model's state with the implementation's after every step.
  Import-free (links into `mdrv`).
-/
import Melda.Driver
import Melda.Replica
import Melda.Flatten
namespace Melda

def sortStrs (l : List Str) : List Str :=
  l.foldl (fun acc s =>
    let rec ins : List Str → List Str
      | [] => [s]
      | x :: xs => if strLt s x then s :: x :: xs else x :: ins xs
    ins acc) []

def statusName : Status → Str
  | .pending => S "pending" | .ready => S "ready" | .applied => S "applied" | .blocked => S "blocked"

def treeObs (t : RevTree) : JVal :=
  let es := t.entries.map (fun e => (e.rev.render, e.parent.map Rev.render, e.staging))
  let sorted := es.foldl (fun acc e =>
    let rec ins : List (Str × Option Str × Bool) → List (Str × Option Str × Bool)
      | [] => [e]
      | x :: xs => if strLt e.1 x.1 then e :: x :: xs else x :: ins xs
    ins acc) []
  .obj (objOfList [
    (S "e", .arr (sorted.map (fun (r, p, s) => .arr [jstr r, jopt p, .bool s]))),
    (S "w", jopt (t.winner.map Rev.render)),
    (S "l", .arr ((sortStrs (t.leafs.map Rev.render)).map jstr))])

def obsOf (st : PState) : JVal :=
  .obj (objOfList [
    (S "deltas", .obj (objOfList (st.deltas.map (fun p => (p.1.id.render, jstr (statusName p.2)))))),
    (S "trees", .obj (objOfList (st.docs.map (fun p => (p.1, treeObs p.2))))),
    (S "anchors", .arr ((sortStrs (st.anchors.map BlockId.render)).map jstr)),
    (S "objects", .arr ((sortStrs st.objects.eraseDups).map jstr)),
    (S "packs", .arr ((sortStrs st.appliedPacks).map jstr))])

structure SimRep where
  kv : KVSpec := {}
  st : PState := {}

def addItems (kv : KVSpec) (items : JObj) : Option KVSpec :=
  items.foldl (fun acc p => match acc, p.2 with
    | some kv, .str hx => (hexDecode hx).map (kv.write p.1)
    | _, _ => none) (some kv)

def truncStr (s : Str) : Str := if s.length > 1500 then s.take 1500 ++ S "…" else s

def diffKey (x y : JObj) : Option Str :=
  ((x.map (·.1) ++ y.map (·.1)).eraseDups).find? (fun k => (objGet k x).map JVal.render ≠ (objGet k y).map JVal.render)

def showSide (v : Option JVal) : Str := match v with | some u => truncStr u.render | none => S "<absent>"

/-- first place (two levels deep) where two observation objects differ -/
def firstDiff (a b : JVal) : Str :=
  match a, b with
  | .obj x, .obj y =>
    match diffKey x y with
    | some k =>
      match objGet k x, objGet k y with
      | some (.obj u), some (.obj v) =>
        (match diffKey u v with
         | some k2 => k ++ S "/" ++ k2 ++ S ": model " ++ showSide (objGet k2 u) ++ S " impl " ++ showSide (objGet k2 v)
         | none => k)
      | u, v => k ++ S ": model " ++ showSide u ++ S " impl " ++ showSide v
    | none => S "?"
  | _, _ => S "model " ++ truncStr a.render ++ S " impl " ++ truncStr b.render

def parseIds (l : List JVal) : List BlockId := l.filterMap (fun v => match v with | .str s => BlockId.parse s | _ => none)

/-- entries of the trees reported by the implementation, as model trees (validated) -/
def treesOfObs (trees : JObj) : List (Str × RevTree) :=
  trees.map (fun p =>
    let es : List RtEntry := match objGet (S "e") (p.2.asObj?.getD []) with
      | some (.arr l) => l.filterMap (fun e => match e with
        | .arr [.str r, par, .bool stg] =>
          (Rev.parse r).map (fun rv => ⟨rv, (match par with | .str ps => Rev.parse ps | _ => none), stg⟩)
        | _ => none)
      | _ => []
    let t : RevTree := { entries := es, staging := es.any (·.staging), validated := false }
    (p.1, t.validate))

def committedEntries (docs : List (Str × RevTree)) : List (Str × Str × Option Str) :=
  docs.flatMap (fun p => (p.2.entries.filter (fun e => !e.staging)).map (fun e => (p.1, e.rev.render, e.parent.map Rev.render)))

def sameSet [DecidableEq β] (a b : List β) : Bool := a.all (b.contains ·) && b.all (a.contains ·)

/-- one line of the trace. Returns the new replicas and the verdict line. -/
def simStep (H : Bytes → Str) (reps : Array SimRep) (line : JVal) : Array SimRep × Str :=
  match line with
  | .obj o =>
    let prim := ((objGet (S "p") o).bind JVal.asStr?).getD []
    let r := ((objGet (S "r") o).bind asNat?).getD 0
    let res := ((objGet (S "res") o).bind JVal.asStr?).getD []
    let items := ((objGet (S "items") o).bind JVal.asObj?).getD []
    let obs := (objGet (S "obs") o).getD .null
    if prim = S "init" then
      let n := ((objGet (S "n") o).bind asNat?).getD 0
      (Array.replicate n {}, S "ok")
    else
    match reps[r]? with
    | none => (reps, S "MISMATCH bad replica index")
    | some rep =>
      match addItems rep.kv items with
      | none => (reps, S "MISMATCH bad items")
      | some kv =>
        let v := viewOf H kv
        let finish := fun (st' : PState) (extra : Str) =>
          let mo := obsOf st'
          let reps' := reps.set! r { kv := kv, st := st' }
          if mo.render = obs.render then
            (reps', if extra.isEmpty then S "ok" else S "MISMATCH " ++ extra)
          else (reps', S "MISMATCH " ++ prim ++ S " state: " ++ firstDiff mo obs ++ (if extra.isEmpty then [] else S " ; " ++ extra))
        let expectRes := fun (ok : Bool) => if (res = S "ok") = ok then ([] : Str) else S "result class: model " ++ (if ok then S "ok" else S "err") ++ S " impl " ++ res
        if prim = S "new" then
          match PState.reload {} v with
          | .ok st' => finish st' (expectRes true)
          | .error _ => ((reps.set! r { kv := kv, st := {} }), if res = S "err" then S "ok" else S "MISMATCH new: model fails, impl " ++ res)
        else if prim = S "reload" then
          match PState.reload rep.st v with
          | .ok st' => finish st' (expectRes true)
          | .error _ => finish rep.st (expectRes false)
        else if prim = S "refresh" then
          match PState.refresh rep.st v with
          | .ok st' => finish st' (expectRes true)
          | .error _ => finish rep.st (expectRes false)
        else if prim = S "until" then
          let anchors := parseIds (((objGet (S "anchors") o).bind JVal.asArr?).getD [])
          match PState.reloadUntil rep.st v anchors with
          | .ok st' => finish st' (expectRes true)
          | .error _ =>
            -- a failed time travel leaves the implementation half-way: resynchronise from its report
            ((reps.set! r { kv := kv, st := rep.st }), if res = S "err" then S "ok-err" else S "MISMATCH until: model fails, impl " ++ res)
        else if prim = S "unstage" then finish rep.st.unstage []
        else if prim = S "put" then finish rep.st []
        else if prim = S "meld" then
          let from_ := ((objGet (S "from") o).bind asNat?).getD 0
          match reps[from_]? with
          | none => (reps, S "MISMATCH bad source replica")
          | some other =>
            let (bids, packs) := PState.meldKeys rep.st other.st
            let otherKeys := other.kv.items.map (·.1)
            let extraKeys := otherKeys.filter (fun k => !KVSpec.isSuffix DELTA_EXT k && !KVSpec.isSuffix PACK_EXT k && (rep.kv.read k).isNone)
            let expect := bids.map BlockId.key ++ packs.map (· ++ PACK_EXT) ++ extraKeys
            let expectNew := expect.filter (fun k => (rep.kv.read k).isNone)
            let got := items.map (·.1)
            let bytesOk := items.all (fun p => match p.2 with
              | .str hx => (hexDecode hx) = other.kv.read p.1
              | _ => false)
            finish rep.st ((if sameSet expectNew got then [] else S "meld wrote " ++ (JVal.arr (got.map jstr)).render ++ S " model expects " ++ (JVal.arr (expectNew.map jstr)).render)
                           ++ (if bytesOk then [] else S " meld bytes differ from the source"))
        else if prim = S "commit" then
          if res = S "none" then finish rep.st (if rep.st.hasStaging then S "commit reported nothing although the model has staged entries" else [])
          else if res = S "err" then
            -- a failed commit may already have written (and indexed) its pack
            let newPacks := (items.map (·.1)).filterMap (fun k =>
              if KVSpec.isSuffix PACK_EXT k then some (k.take (k.length - PACK_EXT.length)) else none)
            let st' := newPacks.foldl (fun (st : PState) k => match loadPackBytes H kv k with
              | some l => { st with objects := st.objects ++ l.map (·.1), appliedPacks := st.appliedPacks ++ [k] }
              | none => st) rep.st
            -- the automatic resolution of array conflicts may already have staged revisions: adopt the
            -- reported trees after checking that committed entries are untouched
            let trees := ((objGet (S "trees") (obs.asObj?.getD [])).bind JVal.asObj?).getD []
            let docs' := treesOfObs trees
            let e1 := if sameSet (committedEntries docs') (committedEntries rep.st.docs) then [] else S "a failed commit changed committed revisions"
            finish { st' with docs := docs' } e1
          else
            match ((objGet (S "id") o).bind JVal.asStr?).bind BlockId.parse with
            | none => (reps, S "MISMATCH commit without id")
            | some id =>
              match fetchBlock H kv id with
              | none => finish rep.st (S "committed block does not pass the model's hash gate / parser")
              | some b =>
                let staged := PState.stagedChanges rep.st.docs
                let e1 := if sameSet b.parents rep.st.anchors then [] else S "parents are not the previous heads; "
                -- commit first resolves array conflicts (a staging step of its own): those records are extra
                let extra := b.changes.filter (fun c => !staged.contains c)
                let e2 := if staged.all (b.changes.contains ·) && extra.all (fun c => isArrayDescriptor c.uuid) then []
                          else S "change records differ from the staged revisions; "
                let docsX := extra.foldl (fun d c => PState.applyChanges d [c]) rep.st.docs
                let (newObjs, pk) : List Str × Option Str := match b.packs with
                  | [k] => (((loadPackBytes H kv k).getD []).map (·.1), some k)
                  | _ => ([], none)
                let e3 := if b.packs.all (fun k => (loadPackBytes H kv k).isSome) then [] else S "named pack missing or invalid; "
                let e4 := if (items.map (·.1)).all (fun k => k = id.key ∨ b.packs.any (fun p => p ++ PACK_EXT = k)) then [] else S "commit wrote unexpected items; "
                let e5 := if PState.changesReadable (rep.st.objects ++ newObjs) b.changes then [] else S "a committed revision has no readable object; "
                finish (PState.validateAll (PState.commitBook { rep.st with docs := docsX } b newObjs pk)) (e1 ++ e2 ++ e3 ++ e4 ++ e5)
        else if prim = S "adopt" then
          -- staging operations (update, delete, resolve, snapshot, replay): the model takes over the
          -- reported trees after checking that committed entries are untouched and re-deriving leaves/winner
          let trees := ((objGet (S "trees") (obs.asObj?.getD [])).bind JVal.asObj?).getD []
          let docs' := treesOfObs trees
          let e1 := if sameSet (committedEntries docs') (committedEntries rep.st.docs) then [] else S "a staging operation changed committed revisions"
          finish { rep.st with docs := docs' } e1
        else (reps, S "MISMATCH unknown primitive " ++ prim)
  | _ => (reps, S "MISMATCH bad line")

end Melda
