/-
  The replica as a state machine at the level of parsed items (model of `melda.rs`:
  `reload`, `refresh`, `reload_until`, `check_delta`, `mark_valid_deltas`, `apply_delta`,
  `get_anchors`, `commit` (block construction), `meld` (item selection), `unstage`).

  A stored item enters this layer only through a `View`: what the hash gate and the parsers
  (`fetch_raw_delta` + `load_raw_delta`, `try_load_pack` + `parse_and_apply_pack`) make of the
  bytes in storage.  `Melda.Replica` builds the `View` from bytes; everything here is independent
  of the byte level, and the theorems of C01, C02, C09, C10, C13, C14 are about these definitions.
  Import-free.
-/
import Melda.RevTree
namespace Melda

structure BlockId where
  index : Nat
  digest : Str
deriving DecidableEq, Inhabited

namespace BlockId
/-- `Ord for DeltaId`: index, then digest text -/
def lt (a b : BlockId) : Bool := a.index < b.index || (a.index = b.index && strLt a.digest b.digest)
def render (b : BlockId) : Str := natStr b.index ++ '-' :: b.digest
end BlockId

structure Change where
  uuid : Str
  rev : Rev
  parent : Option Rev
deriving DecidableEq, Inhabited

/-- a delta block after `load_raw_delta` -/
structure Block where
  id : BlockId
  parents : List BlockId      -- sorted set (BTreeSet)
  packs : List Str            -- sorted set
  changes : List Change
  info : Option JVal := none
deriving Inhabited

inductive Status | pending | ready | applied | blocked
deriving DecidableEq, Inhabited, Repr

/-- What the replica can see of storage through the hash gate and the parsers. -/
structure View where
  /-- `list_objects(".delta")` entries that parse as block identifiers -/
  blockIds : List BlockId
  /-- `fetch_raw_delta` + `load_raw_delta`: `none` when absent, hash mismatch, or malformed -/
  fetch : BlockId → Option Block
  /-- `list_objects(".pack")` -/
  packNames : List Str
  /-- `try_load_pack` + scan: object digests of a pack, `none` when absent or hash mismatch -/
  loadPack : Str → Option (List Str)

/-- `is_charcode` etc.: revisions whose object needs no storage -/
def Rev.isSpecial (r : Rev) : Bool := r.isEmpty || r.isDeleted || r.isResolved || r.isCharcode

structure PState where
  /-- `deltas: BTreeMap<DeltaId, Delta>` with the status of each -/
  deltas : List (Block × Status) := []
  /-- `documents: BTreeMap<String, RevisionTree>` -/
  docs : List (Str × RevTree) := []
  /-- digests in `committed_objects` -/
  objects : List Str := []
  /-- `applied_pack_ids` -/
  appliedPacks : List Str := []
deriving Inhabited

namespace PState

def findDelta (ds : List (Block × Status)) (id : BlockId) : Option (Block × Status) :=
  ds.find? (fun p => p.1.id = id)

def setStatus (ds : List (Block × Status)) (id : BlockId) (s : Status) : List (Block × Status) :=
  ds.map (fun p => if p.1.id = id then (p.1, s) else p)

/-- insertion into the id-sorted map (no-op when the id is present: callers check first) -/
def insertDelta (b : Block) (s : Status) : List (Block × Status) → List (Block × Status)
  | [] => [(b, s)]
  | p :: t =>
    if p.1.id = b.id then (b, s) :: t
    else if BlockId.lt b.id p.1.id then (b, s) :: p :: t
    else p :: insertDelta b s t

/-- `is_readable_and_valid_revision` (without the LRU cache and the data stage: DESIGN.md 7.C02) -/
def readable (objects : List Str) (r : Rev) : Bool := r.isSpecial || objects.contains r.digest

def changesReadable (objects : List Str) (cs : List Change) : Bool :=
  cs.all (fun c => readable objects c.rev && (match c.parent with | some p => readable objects p | none => true))

/-- the loop over the parents inside `check_delta`: left to right, stopping at the first failure;
    `chk` is the recursive call -/
def checkParentsWith (chk : List (Block × Status) → BlockId → List (Block × Status) × Status) :
    List (Block × Status) → List BlockId → List (Block × Status) × Bool
  | ds, [] => (ds, true)
  | ds, p :: ps =>
    match findDelta ds p with
    | none => (ds, false)
    | some _ =>
      let r := chk ds p
      if r.2 = .ready ∨ r.2 = .applied then checkParentsWith chk r.1 ps else (r.1, false)

/-- `check_delta`, with the memoised recursion into the parents. Fuel bounds the recursion depth
    (parents have smaller indices, so `index + 1` suffices: `Props.C02.checkDelta_spec`). -/
def checkDelta (v : View) (objects : List Str) : Nat → List (Block × Status) → BlockId → List (Block × Status) × Status
  | 0, ds, _ => (ds, .blocked)
  | fuel + 1, ds, id =>
    match findDelta ds id with
    | none => (ds, .blocked)
    | some (b, st) =>
      if st ≠ .pending then (ds, st)
      else
        let r := checkParentsWith (checkDelta v objects fuel) ds b.parents
        if !r.2 then (setStatus r.1 id .blocked, .blocked)
        else if !(b.packs.all (fun k => (v.loadPack k).isSome)) then (setStatus r.1 id .blocked, .blocked)
        else if !(changesReadable objects b.changes) then (setStatus r.1 id .blocked, .blocked)
        else (setStatus r.1 id .ready, .ready)

/-- `mark_valid_deltas`: check every pending block, in map order -/
def markValid (v : View) (objects : List Str) (fuel : Nat) (ds : List (Block × Status)) : List (Block × Status) :=
  (ds.map (·.1.id)).foldl (fun acc id =>
    match findDelta acc id with
    | some (_, .pending) => (checkDelta v objects fuel acc id).1
    | _ => acc) ds

/-- `apply_delta`: add every change to its tree, unvalidated, not staging -/
def applyChanges (docs : List (Str × RevTree)) (cs : List Change) : List (Str × RevTree) :=
  cs.foldl (fun d c =>
    let rec upd : List (Str × RevTree) → List (Str × RevTree)
      | [] => [(c.uuid, (RevTree.empty.unvalidatedAdd c.rev c.parent false).1)]
      | (u, t) :: rest =>
        if u = c.uuid then (u, (t.unvalidatedAdd c.rev c.parent false).1) :: rest
        else if strLt c.uuid u then (c.uuid, (RevTree.empty.unvalidatedAdd c.rev c.parent false).1) :: (u, t) :: rest
        else (u, t) :: upd rest
    upd d) docs

/-- apply all `ready` blocks in map order, marking them `applied` -/
def applyReady (st : PState) : PState :=
  let docs := st.deltas.foldl (fun d p => if p.2 = .ready then applyChanges d p.1.changes else d) st.docs
  { st with docs := docs, deltas := st.deltas.map (fun p => if p.2 = .ready then (p.1, .applied) else p) }

def validateAll (st : PState) : PState := { st with docs := st.docs.map (fun p => (p.1, p.2.validate)) }

def maxIndex (ds : List (Block × Status)) : Nat := ds.foldl (fun m p => max m p.1.id.index) 0

/-- `DataStorage::reload` / `refresh` over the view: `none` = an error (a listed pack fails its hash check) -/
def loadPacks (v : View) (skip : List Str) : List Str → List Str → List Str → Option (List Str × List Str)
  | [], objs, applied => some (objs, applied)
  | k :: ks, objs, applied =>
    if skip.contains k then loadPacks v skip ks objs applied
    else match v.loadPack k with
      | none => none
      | some ds => loadPacks v skip ks (objs ++ ds) (applied ++ [k])

inductive PErr | stageNotEmpty | storage | notFound (id : BlockId) | invalid (id : BlockId)
deriving DecidableEq

def hasStaging (st : PState) : Bool := st.docs.any (fun p => p.2.staging)

/-- load the listed blocks that are not yet in the map, as `pending`
    (`deltas.insert` of a block that is already present re-inserts the same value: skipped here) -/
def loadFold (v : View) (init : List (Block × Status)) : List (Block × Status) :=
  v.blockIds.foldl (fun acc id =>
    match findDelta acc id with
    | some _ => acc
    | none => match v.fetch id with
      | some b => insertDelta b .pending acc
      | none => acc) init

/-- `Melda::reload` -/
def reload (st : PState) (v : View) : Except PErr PState :=
  if st.hasStaging then .error .stageNotEmpty
  else match loadPacks v [] v.packNames [] [] with
    | none => .error .storage
    | some (objs, applied) =>
      let ds := loadFold v []
      let ds := markValid v objs (maxIndex ds + 1) ds
      .ok (validateAll (applyReady { deltas := ds, docs := [], objects := objs, appliedPacks := applied }))

/-- `Melda::refresh` -/
def refresh (st : PState) (v : View) : Except PErr PState :=
  if st.hasStaging then .error .stageNotEmpty
  else match loadPacks v st.appliedPacks v.packNames st.objects st.appliedPacks with
    | none => .error .storage
    | some (objs, applied) =>
      let ds := loadFold v st.deltas
      let ds := ds.map (fun p => if p.2 = .blocked then (p.1, .pending) else p)
      let ds := markValid v objs (maxIndex ds + 1) ds
      .ok (validateAll (applyReady { st with deltas := ds, objects := objs, appliedPacks := applied }))

/-- the queue loop of `reload_until` -/
def untilLoop : Nat → List BlockId → PState → PState
  | 0, _, st => st
  | _, [], st => st
  | fuel + 1, id :: q, st =>
    match findDelta st.deltas id with
    | some (b, .ready) =>
      untilLoop fuel (q ++ b.parents)
        { st with docs := applyChanges st.docs b.changes, deltas := setStatus st.deltas id .applied }
    | _ => untilLoop fuel q st

def sumParents (ds : List (Block × Status)) : Nat := ds.foldl (fun n p => n + p.1.parents.length + 1) 0

/-- `Melda::reload_until` (non-empty anchors) -/
def reloadUntil (st : PState) (v : View) (anchors : List BlockId) : Except PErr PState :=
  if anchors.isEmpty then reload st v
  else if st.hasStaging then .error .stageNotEmpty
  else match loadPacks v [] v.packNames [] [] with
    | none => .error .storage
    | some (objs, applied) =>
      let ds := loadFold v []
      let ds := markValid v objs (maxIndex ds + 1) ds
      match anchors.find? (fun a => (findDelta ds a).isNone) with
      | some a => .error (.notFound a)
      | none =>
        match anchors.find? (fun a => match findDelta ds a with | some (_, .ready) => false | _ => true) with
        | some a => .error (.invalid a)
        | none =>
          let st' : PState := { deltas := ds, docs := [], objects := objs, appliedPacks := applied }
          .ok (validateAll (untilLoop (sumParents ds + anchors.length + 1) anchors st'))

/-- `get_anchors` -/
def anchors (st : PState) : List BlockId :=
  let applied := st.deltas.filter (fun p => p.2 = .applied)
  (applied.map (·.1.id)).filter (fun id => !(applied.any (fun p => p.1.parents.contains id)))

/-- staged entries of all trees, as change records (`commit`'s "process stage" loop, tree by tree) -/
def stagedChanges (docs : List (Str × RevTree)) : List Change :=
  docs.flatMap (fun p => (p.2.entries.filter (·.staging)).map (fun e => ⟨p.1, e.rev, e.parent⟩))

/-- index of a new block: one more than the highest parent -/
def nextIndex (parents : List BlockId) : Nat := parents.foldl (fun m p => max m p.index) 0 + 1

/-- bookkeeping of a successful `commit` given the block that was written -/
def commitBook (st : PState) (b : Block) (newObjects : List Str) (pack : Option Str) : PState :=
  { st with
    deltas := insertDelta b .applied st.deltas,
    docs := st.docs.map (fun p => (p.1, p.2.commit)),
    objects := st.objects ++ newObjects,
    appliedPacks := match pack with | some k => st.appliedPacks ++ [k] | none => st.appliedPacks }

/-- `unstage` at tree level -/
def unstage (st : PState) : PState :=
  { st with docs := (st.docs.map (fun p => (p.1, p.2.unstage))).filter (fun p => !p.2.isEmpty) }

/-- keys `meld` copies from `other` into a store holding `have` (blocks the other has loaded and the
    receiver has not; packs the other has applied and the receiver has not) -/
def meldKeys (self other : PState) : List BlockId × List Str :=
  ((other.deltas.map (·.1.id)).filter (fun id => (findDelta self.deltas id).isNone),
   other.appliedPacks.filter (fun k => !self.appliedPacks.contains k))

end PState
end Melda
