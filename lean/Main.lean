import Melda.Driver
open Melda

partial def loop (h : IO.FS.Stream) (out : IO.FS.Stream) : IO Unit := do
  let line ← h.getLine
  if line.isEmpty then return ()
  let l := line.trimAscii.toString
  if l.isEmpty then loop h out else
  match parseJson l.toList with
  | some req => out.putStrLn (String.ofList (answer req))
  | none => out.putStrLn "badjson"
  loop h out

def main : IO Unit := do
  loop (← IO.getStdin) (← IO.getStdout)
