import Melda.SimDriver
open Melda

partial def loop (h : IO.FS.Stream) (out : IO.FS.Stream) : IO Unit := do
  let line ← h.getLine
  if line.isEmpty then return ()
  let l := line.trimAscii.toString
  if l.isEmpty then loop h out else
  match parseJson l.toList with
  | some req => out.putStrLn (String.ofList (answer req))
  | none => out.putStrLn "badjson"
  loop h out

partial def simLoop (h : IO.FS.Stream) (out : IO.FS.Stream) (reps : Array SimRep) : IO Unit := do
  let line ← h.getLine
  if line.isEmpty then return ()
  let l := line.trimAscii.toString
  if l.isEmpty then simLoop h out reps else
  match parseJson l.toList with
  | some req =>
    let (reps', verdict) := simStepP Hreal reps req
    out.putStrLn (String.ofList verdict)
    simLoop h out reps'
  | none =>
    out.putStrLn "badjson"
    simLoop h out reps

def main (args : List String) : IO Unit := do
  if args.contains "sim" then simLoop (← IO.getStdin) (← IO.getStdout) #[]
  else loop (← IO.getStdin) (← IO.getStdout)
